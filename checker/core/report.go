package core

import (
	"crypto/sha1"
	"encoding/json"
	"fmt"
	"os"
	"path/filepath"
	"sort"
	"strings"
	"time"
)

// Verdicts of one obligation.
const (
	VOK        = "discharged"
	VViolated  = "VIOLATED"
	VException = "exception"
	VKnown     = "known-finding"
)

// Obl is one obligation: a rule applied to one construct of the code under analysis.
// Key identifies the construct (function, field, callee, table entry …) and never contains
// a line number; Pos is for diagnosis only.
type Obl struct {
	Rule    string   `json:"rule"`
	Key     string   `json:"key"`
	Pos     string   `json:"pos"`
	Desc    string   `json:"what"`
	Verdict string   `json:"verdict"`
	Detail  string   `json:"detail,omitempty"`
	Path    []string `json:"path,omitempty"`
}

type Report struct {
	Property    string
	Tier        string
	Start       time.Time
	Obls        []*Obl
	Units       []string // what was analysed (functions, tables, templates …)
	Assumptions []string
	Trusted     []string
	Explain     []string
	Configs     []string
	seen        map[string]int
	Finite      int // number of finite table cells enumerated (for evaluations)
}

func NewReport(prop, tier string) *Report {
	return &Report{Property: prop, Tier: tier, Start: time.Now(), seen: map[string]int{}}
}

func (r *Report) add(o *Obl) *Obl {
	// obligations with the same rule+key from several build configurations or paths are merged:
	// a violation wins.
	id := o.Rule + "|" + o.Key
	if i, ok := r.seen[id]; ok {
		old := r.Obls[i-1]
		if old.Verdict != VViolated && o.Verdict == VViolated {
			*old = *o
		}
		return old
	}
	r.Obls = append(r.Obls, o)
	r.seen[id] = len(r.Obls)
	return o
}

func (r *Report) OK(rule, key, pos, desc string) {
	r.add(&Obl{Rule: rule, Key: key, Pos: pos, Desc: desc, Verdict: VOK})
}

func (r *Report) OKd(rule, key, pos, desc, detail string) {
	r.add(&Obl{Rule: rule, Key: key, Pos: pos, Desc: desc, Verdict: VOK, Detail: detail})
}

func (r *Report) Fail(rule, key, pos, desc, detail string, path ...string) {
	r.add(&Obl{Rule: rule, Key: key, Pos: pos, Desc: desc, Verdict: VViolated, Detail: detail, Path: path})
}

// Check records OK or Fail depending on cond.
func (r *Report) Check(cond bool, rule, key, pos, desc, failDetail string) bool {
	if cond {
		r.OK(rule, key, pos, desc)
	} else {
		r.Fail(rule, key, pos, desc, failDetail)
	}
	return cond
}

// Except records an obligation that the analysis cannot discharge and that is covered by a
// reviewed exception (one named construct, one reason).
func (r *Report) Except(rule, key, pos, desc, reason string) {
	r.add(&Obl{Rule: rule, Key: key, Pos: pos, Desc: desc, Verdict: VException, Detail: reason})
}

// Anchor records that a required construct could not be resolved (fail closed).
func (r *Report) Anchor(rule, what string) {
	r.Fail(rule, "anchor:"+what, "-", "anchor must resolve: "+what, "the construct this rule is anchored in was not found (renamed or removed); the rule cannot be decided")
}

// Floor fails the rule when fewer instances than min were found.
func (r *Report) Floor(rule string, got, min int, what string) {
	key := "floor:" + what
	desc := fmt.Sprintf("instance floor: at least %d %s", min, what)
	if got >= min {
		r.OKd(rule, key, "-", desc, fmt.Sprintf("found %d", got))
	} else {
		r.Fail(rule, key, "-", desc, fmt.Sprintf("found only %d: the rule would pass vacuously", got))
	}
}

func (r *Report) Unit(format string, a ...interface{}) {
	r.Units = append(r.Units, fmt.Sprintf(format, a...))
}
func (r *Report) Assume(s string) { r.Assumptions = append(r.Assumptions, s) }
func (r *Report) Trust(s string)  { r.Trusted = append(r.Trusted, s) }
func (r *Report) Explainf(format string, a ...interface{}) {
	r.Explain = append(r.Explain, fmt.Sprintf(format, a...))
}

// ---- known findings ----

type KnownFinding struct {
	Property string `json:"property"`
	Rule     string `json:"rule"`
	Key      string `json:"key"`
	What     string `json:"what"`
}

type KnownFile struct {
	Findings []KnownFinding `json:"findings"`
	Fixed    []string       `json:"fixed"`
}

func VerifDir() string {
	if d := os.Getenv("HZ_VERIF"); d != "" {
		return d
	}
	return "/verif"
}

func loadKnown() (*KnownFile, error) {
	b, err := os.ReadFile(filepath.Join(VerifDir(), "known_findings.json"))
	if err != nil {
		if os.IsNotExist(err) {
			return &KnownFile{}, nil
		}
		return nil, err
	}
	var k KnownFile
	if err := json.Unmarshal(b, &k); err != nil {
		return nil, err
	}
	return &k, nil
}

// ---- finishing ----

type evidence struct {
	PropertyID  string                 `json:"property_id"`
	Tier        string                 `json:"tier"`
	Seed        int                    `json:"seed"`
	Level       string                 `json:"level"`
	Coverage    map[string]interface{} `json:"coverage"`
	Assumptions []string               `json:"assumptions"`
	WallS       float64                `json:"wall_s"`
	Violations  int                    `json:"violations"`
}

func hashKey(s string) string {
	h := sha1.Sum([]byte(s))
	return fmt.Sprintf("%x", h[:5])
}

// Finish prints the report, writes evidence and replay files and returns the exit code.
// onlyKey, when non-empty ("rule|key"), restricts the verdict to that obligation (replay).
func (r *Report) Finish(onlyKey string, writeEvidence bool) int {
	known, kerr := loadKnown()
	if kerr != nil {
		fmt.Printf("CHECKER-ERROR known_findings.json unreadable: %v\n", kerr)
		return 2
	}
	sort.SliceStable(r.Obls, func(i, j int) bool {
		if r.Obls[i].Rule != r.Obls[j].Rule {
			return r.Obls[i].Rule < r.Obls[j].Rule
		}
		return r.Obls[i].Key < r.Obls[j].Key
	})
	usedKnown := map[int]bool{}
	for _, o := range r.Obls {
		if o.Verdict != VViolated {
			continue
		}
		for i, k := range known.Findings {
			if k.Property == r.Property && k.Rule == o.Rule && k.Key == o.Key {
				o.Verdict = VKnown
				usedKnown[i] = true
			}
		}
	}
	verif := VerifDir()
	nOK, nViol, nExc, nKnown := 0, 0, 0, 0
	rules := map[string][2]int{}
	fmt.Printf("== hzcheck property=%s tier=%s configs=%s\n", r.Property, r.Tier, strings.Join(r.Configs, ","))
	for _, u := range r.Units {
		fmt.Printf("unit: %s\n", u)
	}
	replayDir := filepath.Join(verif, "evidence", "replay", r.Property)
	if onlyKey == "" && writeEvidence {
		os.RemoveAll(replayDir)
	}
	var violLines []string
	for _, o := range r.Obls {
		if onlyKey != "" && o.Rule+"|"+o.Key != onlyKey {
			continue
		}
		c := rules[o.Rule]
		c[0]++
		switch o.Verdict {
		case VOK:
			nOK++
			c[1]++
		case VException:
			nExc++
			c[1]++
			fmt.Printf("EXCEPTION %s %s @%s: %s — %s\n", o.Rule, o.Key, o.Pos, o.Desc, o.Detail)
		case VKnown:
			nKnown++
			fmt.Printf("KNOWN-FINDING: property=%s %s %s @%s: %s — %s\n", r.Property, o.Rule, o.Key, o.Pos, o.Desc, o.Detail)
		case VViolated:
			nViol++
			fmt.Printf("FAIL %s %s @%s: %s — %s\n", o.Rule, o.Key, o.Pos, o.Desc, o.Detail)
			for _, p := range o.Path {
				fmt.Printf("     path: %s\n", p)
			}
			rp := filepath.Join(replayDir, strings.ReplaceAll(o.Rule, ".", "_")+"-"+hashKey(o.Key)+".json")
			if writeEvidence {
				os.MkdirAll(replayDir, 0o755)
				b, _ := json.MarshalIndent(map[string]interface{}{"property": r.Property, "rule": o.Rule, "key": o.Key, "pos": o.Pos, "what": o.Desc, "detail": o.Detail, "path": o.Path, "tier": r.Tier,
					"replay": "bin/hzcheck -replay " + rp}, "", " ")
				os.WriteFile(rp, b, 0o644)
			}
			violLines = append(violLines, fmt.Sprintf("VIOLATION property=%s replay=%s", r.Property, rp))
		}
		rules[o.Rule] = c
	}
	var rn []string
	for k := range rules {
		rn = append(rn, k)
	}
	sort.Strings(rn)
	perRule := map[string]interface{}{}
	for _, k := range rn {
		fmt.Printf("rule %-16s obligations=%d discharged=%d\n", k, rules[k][0], rules[k][1])
		perRule[k] = map[string]int{"obligations": rules[k][0], "discharged": rules[k][1]}
	}
	total := nOK + nViol + nExc + nKnown
	fmt.Printf("summary property=%s obligations=%d discharged=%d exceptions=%d known=%d violated=%d units=%d wall=%.1fs\n",
		r.Property, total, nOK, nExc, nKnown, nViol, len(r.Units), time.Since(r.Start).Seconds())
	if total == 0 {
		fmt.Printf("CHECKER-ERROR no obligations generated for %s\n", r.Property)
		violLines = append(violLines, fmt.Sprintf("VIOLATION property=%s replay=%s", r.Property, "none(no-obligations)"))
		nViol++
	}
	for _, l := range violLines {
		fmt.Println(l)
	}
	if writeEvidence && onlyKey == "" {
		// samples: a spread of actual obligations (first of each rule, plus every non-OK)
		var samples []interface{}
		seenRule := map[string]int{}
		for _, o := range r.Obls {
			if o.Verdict != VOK || seenRule[o.Rule] < 3 {
				if len(samples) < 60 {
					samples = append(samples, o)
				}
				seenRule[o.Rule]++
			}
		}
		distinct := map[string]bool{}
		for _, o := range r.Obls {
			if !strings.HasPrefix(o.Key, "floor:") {
				distinct[o.Rule+"|"+o.Key] = true
			}
		}
		units := r.Units
		if len(units) > 400 {
			units = append(append([]string{}, units[:400]...), fmt.Sprintf("… %d more", len(r.Units)-400))
		}
		ev := evidence{PropertyID: r.Property, Tier: r.Tier, Seed: seedFromEnv(), Level: "other", WallS: time.Since(r.Start).Seconds(), Violations: nViol,
			Assumptions: append([]string{"the Go type checker's resolution of identifiers, callees and constants (go/types) is correct", "only the build configurations listed in coverage.configs were analysed"}, r.Assumptions...),
			Coverage: map[string]interface{}{
				"explanation":         strings.Join(r.Explain, " "),
				"obligations":         total,
				"discharged":          nOK + nExc,
				"exceptions":          nExc,
				"known_findings":      nKnown,
				"evaluations":         total + r.Finite,
				"distinct_nontrivial": len(distinct),
				"rule":                "one obligation = one rule applied to one construct of /repo's current source (function path set, struct field, call site, table cell group); distinct = distinct rule+construct keys, instance-floor bookkeeping obligations excluded; evaluations additionally counts enumerated finite table cells",
				"samples":             samples,
				"per_rule":            perRule,
				"units_analysed":      units,
				"units_count":         len(r.Units),
				"configs":             r.Configs,
				"trusted_base":        append([]string{"go/types, go/packages, go/cfg, go/ssa (x/tools v0.29.0)", "hzcheck rule tables (checker/rules/*.go)"}, r.Trusted...),
				"checker_cmd":         "bin/hzcheck -property " + r.Property + " -tier " + r.Tier,
				"exhaustive":          false,
			}}
		os.MkdirAll(filepath.Join(verif, "evidence"), 0o755)
		b, _ := json.MarshalIndent(ev, "", " ")
		if err := os.WriteFile(filepath.Join(verif, "evidence", r.Property+".json"), b, 0o644); err != nil {
			fmt.Printf("CHECKER-ERROR cannot write evidence: %v\n", err)
			return 2
		}
	}
	if nViol > 0 {
		return 1
	}
	return 0
}

func seedFromEnv() int {
	var n int
	fmt.Sscanf(os.Getenv("VERIF_SEED"), "%d", &n)
	return n
}
