#!/usr/bin/env python3
"""Render a sub-agent prompt per property: tools/mkprompts.py <template> <outdir> <worktree-root> [round-tag]
Placeholders: {WT} worktree, {ID} property id, {PROP} the property text (all given fields), {FOCUS}
a per-agent kind of trigger (rotated so that a round covers all kinds), {TAG} round tag."""
import json, os, sys
here = os.path.dirname(os.path.dirname(os.path.abspath(__file__)))
tpl, out, wtroot = open(sys.argv[1]).read(), sys.argv[2], sys.argv[3]
tag = sys.argv[4] if len(sys.argv) > 4 else "r5"
focus = [
 "an ERROR or FAULT path: a failed or short read/write, a timeout, a peer that closes early, a callee that returns an error at one particular point, a panic that is recovered",
 "STATE CARRIED ACROSS REUSE: pooled or recycled objects, a kept-alive connection, a second request/response/operation after one particular first one",
 "a LESS COMMON BUT LEGAL CONFIGURATION or API VARIANT: an option flag, streaming instead of buffered, a sibling API that reaches the same mechanism by another route, another platform's file",
 "BOUNDARY ARITHMETIC: lengths, offsets, capacities and limits exactly at or one past a boundary, empty values, values that straddle a buffer edge, very large values",
 "ORDERING or CONCURRENCY: two goroutines in a particular interleaving, a race window, callbacks/events/handlers that must run in one order, registration order",
]
os.makedirs(out, exist_ok=True)
for i, l in enumerate(open(os.path.join(here, "properties.jsonl"))):
    p = json.loads(l)
    txt = "%s — %s\n\nStatement: %s\n\nQuantified over (%s): %s\n\nWhy the existing tests cannot settle it: %s\n\nAnchors (where the mechanism lives): %s" % (
        p["id"], p["title"], p["statement"], ", ".join(p["quantifier"]["over"]), p["quantifier"]["text"], p["why_tests_cant"], json.dumps(p["anchors"], ensure_ascii=False))
    s = tpl.replace("{WT}", os.path.join(wtroot, p["id"])).replace("{ID}", p["id"]).replace("{PROP}", txt).replace("{FOCUS}", focus[(i + int(tag[-1])) % len(focus)]).replace("{TAG}", tag)
    open(os.path.join(out, p["id"] + ".txt"), "w").write(s)
print("rendered", i + 1, "prompts to", out)
