#!/usr/bin/env python3
"""Confirm a seeded change in a scratch worktree: tools/seedconfirm.py seeded/<id> <property> <worktree>
1. pristine tree + demo  → demo must PASS
2. apply patch.diff, go build ./...            → must compile
3. existing tests of the touched packages (demo file absent) → must pass
4. demo with the change → must FAIL
Writes seeded/<id>/meta.json (merging the 'caught_by' field if tools/seedrun.py already added it)."""
import json, os, re, subprocess, sys, shutil
d, prop, wt = os.path.abspath(sys.argv[1]), sys.argv[2], sys.argv[3]
env = dict(os.environ, GOFLAGS="-mod=mod", GOPROXY="off", GOSUMDB="off", GOTOOLCHAIN="local", GOWORK="off")
def sh(cmd, cwd=wt, timeout=1500):
    r = subprocess.run(cmd, shell=True, cwd=cwd, env=env, capture_output=True, text=True, timeout=timeout)
    return r.returncode, (r.stdout + r.stderr)[-1500:]
sh("git checkout -q -- . && git clean -fdq")
demo_cmd = open(os.path.join(d, "demo_cmd.txt")).read().strip().splitlines()[-1]
# "cd <dir> && go test …" runs in <dir> (cmd/hz is its own module); an absolute worktree prefix is dropped
cwd_rel = ""
mcd = re.match(r"^cd\s+(\S+)\s*&&\s*(.*)$", demo_cmd)
if mcd:
    cwd_rel = re.sub(r"^/tmp/[\w/]*?/C\d\d/?", "", mcd.group(1)).strip("/")
    demo_cmd = mcd.group(2)
demos = [f for f in os.listdir(d) if f.endswith(".go")]
m = re.search(r"(?:^|\s)(\./[\w/.\-]*[\w])/?(?=\s|$)", demo_cmd)
pkgdir = os.path.join(cwd_rel, m.group(1) if m else ".")
# optional demo_place.json: {"<file>": "<dir relative to repo root>"} for demos spread over several packages
placemap = {f: pkgdir for f in demos}
if os.path.exists(os.path.join(d, "demo_place.json")):
    placemap.update(json.load(open(os.path.join(d, "demo_place.json"))))
democwd = os.path.join(wt, cwd_rel)
def place():
    for f in demos:
        shutil.copy(os.path.join(d, f), os.path.join(wt, placemap[f], f))
def unplace():
    for f in demos:
        p = os.path.join(wt, placemap[f], f)
        if os.path.exists(p): os.remove(p)
meta = {"property": prop, "demo_cmd": (("cd %s && " % cwd_rel) if cwd_rel else "") + demo_cmd, "demo_files": demos}
place(); rc, out = sh(demo_cmd, cwd=democwd); meta["demo_on_pristine"] = "pass" if rc == 0 else "FAIL"; meta["demo_on_pristine_tail"] = out[-300:] if rc else ""
unplace()
rc, out = sh("git apply %s" % os.path.join(d, "patch.diff")); assert rc == 0, out
touched = sorted(set(os.path.dirname(l[6:]) for l in open(os.path.join(d, "patch.diff")) if l.startswith("+++ b/")))
meta["files_changed"] = sorted(set(l[6:].strip() for l in open(os.path.join(d, "patch.diff")) if l.startswith("+++ b/")))
rc, out = sh("go build ./... && (cd cmd/hz && go build ./...)"); meta["builds"] = rc == 0
pk = " ".join("./" + t + "/..." for t in touched if not t.startswith("cmd/hz"))
if pk:
    rc, out = sh("go test -count=1 %s ./pkg/protocol/... ./pkg/app/... ./pkg/route/... 2>&1 | grep -v 'no test files' | grep -v '^ok' | head -20" % pk)
    meta["existing_tests_with_change"] = "pass" if not out.strip() else "FAIL: " + out[-400:]
else:
    rc, out = sh("go test -count=1 ./... 2>&1 | grep -v 'no test files' | grep -v '^ok' | grep '^--- FAIL' | head", cwd=os.path.join(wt, "cmd/hz"))
    meta["existing_tests_with_change"] = "cmd/hz failures (4 baseline failures expected): " + out.strip().replace("\n", "; ")
place(); rc, out = sh(demo_cmd, cwd=democwd); meta["demo_with_change"] = "FAIL (as intended)" if rc != 0 else "pass (NOT a valid seed)"; meta["demo_with_change_tail"] = out[-400:]
unplace(); sh("git checkout -q -- . && git clean -fdq")
notes = os.path.join(d, "notes.md")
meta["needs_to_manifest"] = "see notes.md"
old = {}
mp = os.path.join(d, "meta.json")
if os.path.exists(mp): old = json.load(open(mp))
old.update(meta); json.dump(old, open(mp, "w"), indent=1)
print(os.path.basename(d), meta["demo_on_pristine"], "|", meta["builds"], "|", meta["existing_tests_with_change"][:60], "|", meta["demo_with_change"])
