#!/usr/bin/env python3
"""Run every check against behaviour-preserving patches and report alarms (= false alarms).
usage: tools/benignrun.py <worktree> <patch.diff>...   (worktree: scratch git worktree of /repo, outside /repo and /verif)
Each patch is applied to the worktree (git apply), must build, all 20 quick checks run with
HZ_REPO=<worktree> and must exit 0; the worktree is reverted afterwards."""
import json, os, subprocess, sys, shutil, tempfile
from concurrent.futures import ThreadPoolExecutor
here = os.path.dirname(os.path.dirname(os.path.abspath(__file__)))
wt = sys.argv[1]
env = dict(os.environ, HZ_REPO=wt, HZ_NOEVIDENCE="1", HZ_VERIF=here, GOFLAGS="-mod=mod", GOPROXY="off", GOSUMDB="off", GOTOOLCHAIN="local", GOWORK="off")
subprocess.run("cd %s/checker && CGO_ENABLED=0 go build -o %s/bin/hzcheck ./cmd/hzcheck" % (here, here), shell=True, check=True, env=env)
tmp = tempfile.mkdtemp(prefix="hzbenign"); tmpbin = tmp + "/hzcheck"; shutil.copy(os.path.join(here, "bin", "hzcheck"), tmpbin)
props = [json.loads(l)["id"] for l in open(os.path.join(here, "properties.jsonl"))]
bad = 0
for patch in [os.path.abspath(x) for x in sys.argv[2:]]:
    subprocess.run("git checkout -q -- . && git clean -fdq", shell=True, cwd=wt, check=True)
    r = subprocess.run(["git", "apply", patch], cwd=wt, capture_output=True, text=True)
    if r.returncode:
        print("SKIP     %s: does not apply: %s" % (patch, r.stderr.strip()[:200])); continue
    try:
        b = subprocess.run("go build ./... 2>&1 | tail -3; cd cmd/hz && go build ./... 2>&1 | tail -3", shell=True, cwd=wt, capture_output=True, text=True, env=env)
        if b.stdout.strip():
            print("SKIP     %s: does not build: %s" % (patch, b.stdout.strip()[:200])); continue
        # one process, one loaded world, the quick rules of all 20 properties (hzcheck -property all)
        r = subprocess.run([tmpbin, "-property", "all"], capture_output=True, text=True, env=env)
        alarms, cur = [], []
        for l in r.stdout.splitlines():
            if l.startswith("FAIL ") or l.startswith("CHECKER-"):
                cur.append(l[:260])
            elif l.startswith("summary property="):
                if cur: alarms.append((l.split()[1].split("=")[1], cur[:4]))
                cur = []
        if r.returncode != 0 and not alarms:
            alarms = [("?", ["exit %d: %s" % (r.returncode, (r.stdout + r.stderr)[-300:])])]
        if alarms:
            bad += 1
            print("ALARM    %s" % patch)
            for p, ls in alarms:
                for l in ls: print("           %s: %s" % (p, l))
        else:
            print("silent   %s" % patch)
    finally:
        subprocess.run("git checkout -q -- . && git clean -fdq", shell=True, cwd=wt, check=True)
shutil.rmtree(tmp, ignore_errors=True)
print("benignrun: alarms=%d of %d" % (bad, len(sys.argv) - 2))
