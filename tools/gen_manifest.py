#!/usr/bin/env python3
"""Generates /verif/MANIFEST.json from tools/manifest_table.json (claims + not_applicable)."""
import json, os, sys
here = os.path.dirname(os.path.dirname(os.path.abspath(__file__)))
tab = json.load(open(os.path.join(here, "tools", "manifest_table.json")))
props = [json.loads(l)["id"] for l in open(os.path.join(here, "properties.jsonl"))]
checks, na = [], []
for pid in props:
    t = tab.get(pid)
    if t and t.get("claim"):
        checks.append({
            "property_id": pid,
            "quick_cmd": "./check %s quick" % pid,
            "thorough_cmd": "./check %s thorough" % pid,
            "evidence_file": "/verif/evidence/%s.json" % pid,
            "replay_cmd_template": "./check --replay {path}",
            "engine": "hzcheck",
            "level_claimed": {"category": "other", "text": t["text"], "design_ref": "DESIGN.md §2 " + pid},
            "level_note": t["note"],
            "technique": t["technique"],
        })
    else:
        na.append({"property_id": pid, "reason": (t or {}).get("reason", "no static rule implemented yet for this property; see DESIGN.md §2 for the clauses planned")})
m = {
    "version": 1,
    "setup_cmd": "cd /verif/checker && GOFLAGS=-mod=mod GOPROXY=off GOSUMDB=off GOTOOLCHAIN=local GOWORK=off CGO_ENABLED=0 go build -o /verif/bin/hzcheck ./cmd/hzcheck",
    "hooks": {"guard": "verif", "enable": "none: static analysis needs no hooks; no file in /repo carries the verif tag", "baseline_off_cmd": "for m in . ./cmd/hz; do (cd /repo/$m && GOFLAGS=-mod=mod go test -json -vet=off -count=1 -timeout 25m ./...); done", "source_commits": [], "add_only": True},
    "engines": [{"name": "hzcheck", "path": "/verif/checker", "serves_properties": [c["property_id"] for c in checks], "kind_free_text": "repository-specific static analyser (go/packages + go/types + go/cfg + go/ssa, x/tools v0.29.0): ESP path-sensitive typestate, field-coverage, serialiser taint, zone abstract interpretation, constant-table agreement, guarded-by, template/type agreement. Never executes hertz."}],
    "checks": checks,
    "notes": "Every check is static analysis of /repo's current working tree; level 'other' everywhere: each check decides named structural clauses that are necessary conditions of the behavioural property, not the behaviour itself (DESIGN.md §0). quick = all rules of the property on linux/amd64; thorough = the same rules additionally on windows/amd64 and windows/386 -tags=stdjson (the other configurations in which the module type-checks; they select uri_windows.go, bytesconv_32.go, gjson_required.go, …), obligations merged per rule+construct, a violation wins; C16 (cmd/hz, no build-tagged sources) has thorough = quick. known findings: /verif/known_findings.json (findings empty; 13 fixed entries).",
    "not_applicable": na,
}
json.dump(m, open(os.path.join(here, "MANIFEST.json"), "w"), indent=1)
print("checks:", len(checks), "not_applicable:", len(na))
