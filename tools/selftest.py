#!/usr/bin/env python3
"""Both-ways self test of the rules (development aid, not a MANIFEST command).

selftest/mutations.json lists small edits to /repo (exact string replacement, must still
compile). For each one the edit is applied to the working tree of /repo, the property's
quick check is run and must exit 1 naming the expected rule, then the edit is reverted with
`git checkout`. Usage: tools/selftest.py [id-substring ...]
"""
import json, os, subprocess, sys
here = os.path.dirname(os.path.dirname(os.path.abspath(__file__)))
repo = os.environ.get("HZ_REPO", "/repo")
# --benign: the other direction. selftest/benign.json lists behaviour-preserving edits
# (renames, extracted temporaries, if→switch, reordered independent statements, a new field
# with its reset line …); every listed property's check must stay silent (exit 0).
benign = "--benign" in sys.argv
muts = json.load(open(os.path.join(here, "selftest", "benign.json" if benign else "mutations.json")))
sel = [a for a in sys.argv[1:] if a != "--benign"]
allprops = [json.loads(l)["id"] for l in open(os.path.join(here, "properties.jsonl"))]
ok = bad = 0
# build once and run from a private copy so that editing the checker meanwhile is harmless
import shutil, tempfile
subprocess.run("cd %s/checker && GOFLAGS=-mod=mod GOPROXY=off GOSUMDB=off GOTOOLCHAIN=local GOWORK=off CGO_ENABLED=0 go build -o %s/bin/hzcheck ./cmd/hzcheck" % (here, here), shell=True, check=True)
tmpbin = tempfile.mkdtemp(prefix="hzselftest") + "/hzcheck"
shutil.copy(os.path.join(here, "bin", "hzcheck"), tmpbin)
if subprocess.run(["git", "-C", repo, "status", "--porcelain", "--untracked-files=no"], capture_output=True, text=True).stdout.strip():
    sys.exit("refusing: /repo has uncommitted changes")
for m in muts:
    if sel and not any(s in m["id"] for s in sel):
        continue
    edits = m.get("edits") or [m]
    try:
        for e in edits:
            p = os.path.join(repo, e["file"])
            s = open(p).read()
            n = s.count(e["old"])
            if n != e.get("count", 1) and not (e.get("all") and n > 0):
                raise RuntimeError("%s: pattern occurs %d times in %s" % (m["id"], n, e["file"]))
            open(p, "w").write(s.replace(e["old"], e["new"]))
        b = subprocess.run("cd %s && GOFLAGS=-mod=mod go build ./... 2>&1 | tail -5" % (repo if not m.get("hz") else repo + "/cmd/hz"), shell=True, capture_output=True, text=True)
        if b.stdout.strip():
            raise RuntimeError("%s: mutant does not compile: %s" % (m["id"], b.stdout))
        if benign:
            from concurrent.futures import ThreadPoolExecutor
            cenv = dict(os.environ, HZ_NOEVIDENCE="1", HZ_VERIF=here, GOFLAGS="-mod=mod", GOPROXY="off", GOSUMDB="off", GOTOOLCHAIN="local", GOWORK="off")
            props = m.get("properties") or allprops
            with ThreadPoolExecutor(6) as ex:
                rs = list(ex.map(lambda p: (p, subprocess.run([tmpbin, "-property", p, "-tier", "quick"], capture_output=True, text=True, env=cenv)), props))
            alarms = [(p, [l[:220] for l in r.stdout.splitlines() if l.startswith("FAIL ")][:3]) for p, r in rs if r.returncode != 0]
            if alarms:
                bad += 1
                print("ALARM    %-34s %s" % (m["id"], alarms))
            else:
                ok += 1
                print("silent   %-34s (%d properties)" % (m["id"], len(props)))
            continue
        r = subprocess.run([tmpbin, "-property", m["property"], "-tier", m.get("tier", "quick")], capture_output=True, text=True, env=dict(os.environ, HZ_NOEVIDENCE="1", HZ_VERIF=here, GOFLAGS="-mod=mod", GOPROXY="off", GOSUMDB="off", GOTOOLCHAIN="local", GOWORK="off"))
        out = r.stdout
        hit = [l for l in out.splitlines() if l.startswith("FAIL ") and m["expect"] in l]
        if r.returncode == 1 and hit and "VIOLATION property=%s" % m["property"] in out:
            ok += 1
            print("caught   %-28s %s" % (m["id"], hit[0][:150]))
        else:
            bad += 1
            print("MISSED   %-28s exit=%d %s" % (m["id"], r.returncode, [l for l in out.splitlines() if l.startswith("FAIL ")][:3]))
    except RuntimeError as ex:
        bad += 1
        print("ERROR   ", ex)
    finally:
        subprocess.run(["git", "-C", repo, "checkout", "--", "."], check=True)
shutil.rmtree(os.path.dirname(tmpbin), ignore_errors=True)
print("selftest%s: %s=%d %s=%d" % (" --benign" if benign else "", "silent" if benign else "caught", ok, "alarm/error" if benign else "missed/error", bad))
sys.exit(1 if bad else 0)
