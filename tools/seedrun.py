#!/usr/bin/env python3
"""Run the quick checks against a seeded change: tools/seedrun.py seeded/<id> [Cnn ...]
Applies patch.diff to /repo's working tree (git apply), builds, runs the listed (default:
all claimed) properties' quick checks with a private copy of the analyser, prints which
rules fail, and reverts (git checkout). Never commits to /repo."""
import json, os, subprocess, sys, shutil, tempfile
here = os.path.dirname(os.path.dirname(os.path.abspath(__file__)))
repo = os.environ.get("SEED_REPO", "/repo")  # a scratch worktree may be used while /repo is busy
d = os.path.abspath(sys.argv[1])
props = sys.argv[2:] or [c["property_id"] for c in json.load(open(os.path.join(here, "MANIFEST.json")))["checks"]]
if subprocess.run(["git", "-C", repo, "status", "--porcelain", "--untracked-files=no"], capture_output=True, text=True).stdout.strip():
    sys.exit("refusing: /repo has uncommitted changes")
env = dict(os.environ, HZ_REPO=repo, GOFLAGS="-mod=mod", GOPROXY="off", GOSUMDB="off", GOTOOLCHAIN="local", GOWORK="off", HZ_NOEVIDENCE="1", HZ_VERIF=here)
subprocess.run("cd %s/checker && CGO_ENABLED=0 go build -o %s/bin/hzcheck ./cmd/hzcheck" % (here, here), shell=True, check=True, env=env)
tmp = tempfile.mkdtemp(prefix="hzseed"); tmpbin = tmp + "/hzcheck"; shutil.copy(os.path.join(here, "bin", "hzcheck"), tmpbin)
caught = {}
try:
    subprocess.run(["git", "-C", repo, "apply", os.path.join(d, "patch.diff")], check=True)
    b = subprocess.run("cd %s && go build ./... 2>&1 | tail -3; cd cmd/hz && go build ./... 2>&1 | tail -3" % repo, shell=True, capture_output=True, text=True, env=env)
    if b.stdout.strip():
        print("BUILD:", b.stdout)
    for p in props:
        r = subprocess.run([tmpbin, "-property", p, "-tier", "quick"], capture_output=True, text=True, env=env)
        fails = [l for l in r.stdout.splitlines() if l.startswith("FAIL ")]
        if r.returncode != 0 or fails:
            caught[p] = [f[:260] for f in fails] or ["exit %d" % r.returncode]
finally:
    subprocess.run(["git", "-C", repo, "checkout", "--", "."], check=True)
    shutil.rmtree(tmp, ignore_errors=True)
print(json.dumps({"seed": os.path.basename(d), "caught_by": caught}, indent=1))
